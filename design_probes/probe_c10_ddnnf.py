import warnings, signal, itertools
warnings.filterwarnings("ignore")
signal.alarm(120)
from problog.program import PrologString
from problog.formula import LogicFormula, LogicDAG
from problog.cnf_formula import CNF
from problog.ddnnf_formula import DDNNF
srcs = ["0.3::a. 0.6::b. p :- a. p :- b, q. q :- p. q :- \+a. query(p). query(q). evidence(b).",
        "0.3::a; 0.4::b. 0.5::c. p :- a, c. p :- b. r :- \+p. query(p). query(r). query(a).",
        "0.3::a. query(a).", "0.3::a. 0.5::b. query(a). query(b).",
        "0.3::e(1,2). 0.4::e(2,3). 0.5::e(3,1). 0.6::e(1,3). path(X,Y) :- e(X,Y). path(X,Y) :- e(X,Z), path(Z,Y). query(path(1,3)). query(path(2,1))."]
for s in srcs:
    lf = LogicFormula.create_from(PrologString(s))
    dag = LogicDAG.create_from(lf)
    cnf = CNF.create_from(dag)
    dd = DDNNF.create_from(cnf)
    n = cnf.atomcount
    clauses = [c for c in cnf.clauses]
    # var sets
    vs = {}
    ok_dec = ok_smooth = True
    for i, node, t in dd:
        if t == 'atom': vs[i] = {node.identifier}
        else:
            ch = [vs[abs(c)] for c in node.children]
            u = set().union(*ch)
            if t == 'conj':
                if sum(len(c) for c in ch) != len(u): ok_dec = False
            else:
                if any(c != u for c in ch): ok_smooth = False
            vs[i] = u
    root = len(dd)
    # model equivalence
    def ev(i, asg):
        if i == 0: return True
        if i is None: return False
        node = dd.get_node(abs(i)); t = type(node).__name__
        if t == 'atom': v = asg[node.identifier]
        elif t == 'conj': v = all(ev(c, asg) for c in node.children)
        else: v = any(ev(c, asg) for c in node.children)
        return v if i > 0 else not v
    def sat(asg):
        for c in clauses:
            if c[0] == 'c': continue
            lits = [l for l in c if not isinstance(l, bool) and l is not None] if isinstance(c[0], bool) or c[0] is None else c
            if isinstance(c[0], bool) or c[0] is None: lits = c[1:]
            if not any((asg[abs(l)] if l > 0 else not asg[abs(l)]) for l in lits): return False
        return True
    bad = 0; det_bad = 0
    for bits in itertools.product([False, True], repeat=n):
        asg = {i+1: b for i, b in enumerate(bits)}
        if ev(root, asg) != sat(asg): bad += 1
    print(n, len(dd), 'dec', ok_dec, 'smooth', ok_smooth, 'rootvars', len(vs.get(root, ())), 'model mismatches', bad, 'names', list(dd.get_names_with_label())[:4])
