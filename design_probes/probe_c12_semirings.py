import warnings, signal, itertools, math
warnings.filterwarnings("ignore")
signal.alarm(100)
from problog.evaluator import *
V=[0.0,1e-300,1e-12,0.1,0.25,0.5,0.75,0.9,1-1e-12,1.0]
P=SemiringProbability(); L=SemiringLogProbability(); S=SemiringSymbolic()
def close(a,b,tol=1e-9): return abs(a-b)<=tol*max(1,abs(a),abs(b))
bad=collections=0
issues={}
def note(k,ex): issues.setdefault(k,ex)
for a,b,c in itertools.product(V,repeat=3):
    la,lb,lc = (L.value(x) for x in (a,b,c))
    # log image
    if a+b<=1:
        if not close(L.result(L.plus(la,lb)), a+b): note('log plus', (a,b))
    if not close(L.result(L.times(la,lb)), a*b): note('log times',(a,b))
    if not close(L.result(L.plus(L.plus(la,lb),lc)), L.result(L.plus(la,L.plus(lb,lc)))): note('log assoc plus',(a,b,c))
    if not close(L.result(L.times(la,L.plus(lb,lc))), L.result(L.plus(L.times(la,lb),L.times(la,lc)))): note('log distrib',(a,b,c))
for a in V:
    la=L.value(a)
    try:
        if not close(L.result(L.negate(la)), 1-a, 1e-9): note('log negate',(a, L.result(L.negate(la))))
    except Exception as e: note('log negate exc',(a,type(e).__name__))
    if L.is_zero(la)!=P.is_zero(a): note('is_zero mismatch',(a,))
    if L.is_one(la)!=P.is_one(a): note('is_one mismatch',(a,))
    for z in V:
        if z==0: continue
        if a<=z and not close(L.result(L.normalize(la,L.value(z))), a/z): note('log normalize',(a,z))
print('zero/one', L.is_zero(L.zero()), L.is_one(L.one()), P.is_zero(P.zero()), P.is_one(P.one()), S.is_zero(S.zero()), S.is_one(S.one()))
class Min(Semiring):
    def one(self): return 1.0
    def zero(self): return 0.0
    def plus(self,a,b): return a+b
    def times(self,a,b): return a*b
m=Min()
print('base', m.is_one(m.one()), m.is_zero(m.zero()))
try: print('normalize', m.normalize(0.3, m.one()))
except Exception as e: print('normalize', type(e).__name__)
try: print('symbolic normalize', S.normalize('x', S.one()), S.is_one('1'))
except Exception as e: print(type(e).__name__)
print('ad_complement', P.ad_complement([0.3,0.4]), L.result(L.ad_complement([L.value(0.3),L.value(0.4)])))
print(issues)
