import warnings, signal, itertools, time, collections
warnings.filterwarnings("ignore")
signal.alarm(300)
from problog.util import OrderedSet, UHeap, BitVector
# ---- OrderedSet BFS
KEYS=[1,2,3]
def os_ops():
    ops=[]
    for k in KEYS: ops += [('add',k),('discard',k)]
    ops += [('pop',True),('pop',False)]
    for sub in [(1,),(2,3),(3,1)]: ops += [('ior',sub),('or',sub),('and',sub),('sub',sub)]
    return ops
def apply_os(hist):
    s=OrderedSet(); m=[]
    for op,arg in hist:
        if op=='add':
            s.add(arg); 
            if arg not in m: m.append(arg)
        elif op=='discard':
            s.discard(arg)
            if arg in m: m.remove(arg)
        elif op=='pop':
            if not m:
                try: s.pop(arg); return None,'pop on empty did not raise'
                except KeyError: pass
            else:
                r=s.pop(arg); e = m.pop(-1 if arg else 0)
                if r!=e: return None, 'pop returned %r expected %r'%(r,e)
        elif op=='ior':
            s |= OrderedSet(arg)
            for x in arg:
                if x not in m: m.append(x)
        elif op=='or':
            r = s | OrderedSet(arg); e = m+[x for x in arg if x not in m]
            if list(r)!=e: return None,'or %r vs %r'%(list(r),e)
        elif op=='and':
            r = s & OrderedSet(arg); e=[x for x in m if x in arg]
            if list(r)!=e: return None,'and %r vs %r (self order)'%(list(r),e)
        elif op=='sub':
            r = s - OrderedSet(arg); e=[x for x in m if x not in arg]
            if list(r)!=e: return None,'sub %r vs %r'%(list(r),e)
        if list(s)!=m or len(s)!=len(m) or list(reversed(s))!=m[::-1] or any((k in s)!=(k in m) for k in KEYS):
            return None, 'state %r vs model %r'%(list(s),m)
    return tuple(m), None
def bfs(apply, ops, depth):
    seen={(): []}; frontier=[[]]; trans=0; viol={}
    for d in range(depth):
        nxt=[]
        for h in frontier:
            for op in ops:
                h2=h+[op]; trans+=1
                st,err = apply(h2)
                if err:
                    viol.setdefault(err.split(' ')[0]+' '+op[0], h2); continue
                if st not in seen: seen[st]=h2; nxt.append(h2)
        frontier=nxt
    return len(seen), trans, viol
t=time.time(); print('OrderedSet', bfs(apply_os, os_ops(), 6), time.time()-t)
# ---- UHeap: items a,b,c with mutable key table
ITEMS='abc'
def heap_ops():
    ops=[]
    for it in ITEMS:
        for k in (1,2,3): ops.append(('push',(it,k)))
    ops += [('pop',None),('peek',None)]
    return ops
def apply_heap(hist):
    keys={}; h=UHeap(key=lambda it: keys[it]); m={}
    for op,arg in hist:
        if op=='push':
            it,k=arg; keys[it]=k
            new = h.push(it)
            if new != (it not in m): return None,'push returned %r'%new
            m[it]=k
        elif op=='pop':
            if not m: continue
            k,it = h.pop_with_key()
            mk = min(m.values())
            if k!=mk or m.get(it)!=k: return None,'pop gave %r key %r expected key %r model %r'%(it,k,mk,m)
            del m[it]
        elif op=='peek':
            if not m: continue
            it=h.peek()
            if m[it]!=min(m.values()): return None,'peek gave %r model %r'%(it,m)
        if len(h)!=len(m): return None,'len'
        # heap invariant
        hp=h._heap
        for i in range(1,len(hp)):
            if hp[(i-1)//2][0] > hp[i][0]: return None,'heap invariant broken %r'%hp
        if {it:i for i,(k,it) in enumerate(hp)} != h._index: return None,'index map broken'
    return (tuple(h._heap),), None
t=time.time(); print('UHeap', bfs(apply_heap, heap_ops(), 6), time.time()-t)
# ---- BitVector
IDX=[0,1,31,32,33,64]
def bv_ops():
    ops=[('add',i) for i in IDX]
    for sub in [(0,),(32,64),(1,33)]: ops += [('ior',sub),('iand',sub),('or',sub),('and',sub)]
    return ops
def mk(sub):
    b=BitVector()
    for i in sub: b.add(i)
    return b
def apply_bv(hist):
    b=BitVector(); m=set()
    for op,arg in hist:
        if op=='add': b.add(arg); m.add(arg)
        elif op=='ior': b |= mk(arg); m |= set(arg)
        elif op=='iand': b &= mk(arg); m &= set(arg)
        elif op=='or':
            r = b | mk(arg)
            if set(r)!=m|set(arg): return None,'or %r vs %r'%(sorted(r),sorted(m|set(arg)))
        elif op=='and':
            r = b & mk(arg)
            if set(r)!=m&set(arg): return None,'and %r vs %r'%(sorted(r),sorted(m&set(arg)))
        if sorted(b)!=sorted(m) or len(b)!=len(m) or bool(b)!=bool(m) or any(bool(i in b)!=(i in m) for i in IDX+[2,63,65,200]):
            return None,'state %r vs model %r after %r'%(sorted(b),sorted(m),op)
    return tuple(sorted(m)), None
t=time.time(); print('BitVector', bfs(apply_bv, bv_ops(), 5), time.time()-t)
