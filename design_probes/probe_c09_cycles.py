import warnings, signal, itertools, sys, time
warnings.filterwarnings("ignore")
from problog.program import PrologString
from problog.formula import LogicFormula, LogicDAG
from problog.cnf_formula import CNF
facts = {'a':0.3,'b':0.6}; der = ['p','q','r']
atoms = list(facts)+der
lits = [(x,True) for x in atoms]+[(x,False) for x in atoms]
bodies = [(l,) for l in lits] + [(l1,l2) for l1 in lits for l2 in lits if l1[0]!=l2[0]]
allrules = [(h,b) for h in der for b in bodies]
def txt(rules, ev=None):
    s = "0.3::a. 0.6::b. "
    for h,b in rules:
        s += h+" :- "+", ".join((x if pos else "\\+"+x) for x,pos in b)+". "
    for h in sorted({h for h,b in rules}): s += "query(%s). "%h
    if ev: s += "evidence(%s,%s). " % (ev[0], 'true' if ev[1] else 'false')
    return s
def ok(rules):
    heads = {h for h,b in rules}
    used = {x for h,b in rules for x,s in b if x in der}
    return used <= heads
def wf_eval(f, asg):
    # f: LogicFormula (maybe cyclic); asg: dict atom node -> bool. returns (T,U) sets of true / possibly-true node ids
    n = len(f)
    def lfp(negref):
        val = [False]*(n+1)
        ch=True
        while ch:
            ch=False
            for i,node,t in f:
                if val[i]: continue
                if t=='atom': v = asg[i]
                else:
                    def lv(c):
                        if c>0: return val[c]
                        return not negref[-c]
                    v = all(lv(c) for c in node.children) if t=='conj' else any(lv(c) for c in node.children)
                if v: val[i]=True; ch=True
        return val
    T=[False]*(n+1); U=[True]*(n+1)
    while True:
        T2=lfp(U); U2=lfp(T2)
        if T2==T and U2==U: break
        T,U=T2,U2
    return T,U
def lit(val, k):
    if k==0: return True
    if k is None: return False
    return val[k] if k>0 else not val[-k]
nr=int(sys.argv[1]); step=int(sys.argv[2]); off=int(sys.argv[3]); cap=float(sys.argv[4])
t=time.time(); n=0; bad=0; cnfbad=0
for idx, rs in enumerate(itertools.combinations(allrules, nr)):
    if idx % step != off or not ok(rs): continue
    heads = sorted({h for h,b in rs})
    for ev in [None, (heads[0], False)]:
        src = txt(rs, ev)
        try:
            lf = LogicFormula.create_from(PrologString(src))
            dag = LogicDAG.create_from(lf)
            cnf = CNF.create_from(dag)
        except Exception as e:
            continue
        n+=1
        at_lf = [i for i,node,t in lf if t=='atom']
        # map atoms by identifier
        id_lf = {lf.get_node(i).identifier:i for i in at_lf}
        at_dag = {dag.get_node(i).identifier:i for i,node,t in dag if t=='atom'}
        names_lf = {(str(nm),lab):k for nm,k,lab in lf.get_names_with_label() if lab!='named'}
        names_dag = {(str(nm),lab):k for nm,k,lab in dag.get_names_with_label() if lab!='named'}
        ids = sorted(set(id_lf)|set(at_dag), key=str)
        for bits in itertools.product([False,True], repeat=len(ids)):
            w = dict(zip(ids,bits))
            T,U = wf_eval(lf, {id_lf[i]:w[i] for i in id_lf})
            Td,Ud = wf_eval(dag, {at_dag[i]:w[i] for i in at_dag})
            for key,k in names_lf.items():
                kd = names_dag.get(key, 'MISSING')
                if kd=='MISSING': bad+=1; print('MISSING', src, key); break
                v1 = lit(T,k); v1u = lit(U,k) if (k and k>0) else v1
                v2 = lit(Td,kd)
                if v1 != v2:
                    bad+=1
                    if bad<10: print('DIFF', src, key, w, v1, v2, flush=True)
                    break
    if time.time()-t>cap: print('cap'); break
print('cases', n, 'bad', bad, time.time()-t)
