import warnings, signal, itertools, sys, time
warnings.filterwarnings("ignore")
from problog.program import PrologString
from problog.formula import LogicFormula
from problog.ddnnf_formula import DDNNF
from problog.engine_stack import StackBasedEngine, MessageFIFO, MessageAnyOrder
from problog.engine import DefaultEngine

class Provider:
    def __init__(self, prefix): self.prefix=list(prefix); self.points=[]; self.i=0
    def choose(self, n):
        c = self.prefix[self.i] if self.i < len(self.prefix) else 0
        self.i += 1; self.points.append(n); 
        return c
PERMS = {k:list(itertools.permutations(range(k))) for k in range(2,6)}
class PF(MessageFIFO):
    def __iadd__(self, msgs):
        msgs = list(msgs)
        if len(msgs) > 1 and all(m[0]=='e' for m in msgs) and len(msgs) <= 5:
            c = PROV.choose(len(PERMS[len(msgs)]))
            msgs = [msgs[j] for j in PERMS[len(msgs)][c]]
        for m in msgs: self.append(m)
        return self
class PE(StackBasedEngine):
    def __init__(self, **kw): StackBasedEngine.__init__(self)
    def init_message_stack(self): return PF(self)
class RQ(MessageAnyOrder):
    def __init__(self, engine):
        MessageAnyOrder.__init__(self, engine); self.rc=[]; self.e=[]; self.n=0
    def append(self,m): (self.e if m[0]=='e' else self.rc).append(m)
    def pop(self):
        self.n+=1
        if self.n>5000: raise RuntimeError('horizon')
        if self.rc: return self.rc.pop(-1)
        if len(self.e)>1:
            c = PROV.choose(len(self.e)); return self.e.pop(len(self.e)-1-c)
        return self.e.pop(-1)
    def __bool__(self): return bool(self.e) or bool(self.rc)
    def __len__(self): return len(self.e)+len(self.rc)
    def __iter__(self): return iter(self.e+self.rc)
class RE(StackBasedEngine):
    def __init__(self, **kw): StackBasedEngine.__init__(self, unbuffered=True)
    def init_message_stack(self): return RQ(self)

def run(src, engcls, prefix):
    global PROV
    PROV = Provider(prefix)
    try:
        lf = LogicFormula.create_from(PrologString(src), engine=engcls())
        r = DDNNF.create_from(lf).evaluate()
        out = tuple(sorted((str(k), round(v,9)) for k,v in r.items()))
    except Exception as e:
        out = type(e).__name__
    return out, PROV.points

def explore(src, engcls, bound):
    base,_ = run(src, DefaultEngine, [])
    results = {}
    stack=[[]]; n=0
    while stack:
        prefix = stack.pop()
        out, pts = run(src, engcls, prefix)
        n+=1
        results.setdefault(out, prefix)
        dev = sum(1 for c in prefix if c)
        if dev < bound:
            for i in range(len(prefix), len(pts)):
                for alt in range(1, pts[i]):
                    stack.append(prefix + [0]*(i-len(prefix)) + [alt])
    return base, results, n

facts = ['a','b']; der = ['p','q','r']
atoms = facts+der
lits = [(x,True) for x in atoms]+[(x,False) for x in atoms]
bodies = [(l,) for l in lits] + [(l1,l2) for l1 in lits for l2 in lits if l1[0]!=l2[0]]
allrules = [(h,b) for h in der for b in bodies]
def txt(rules):
    s = "0.3::a. 0.6::b. "
    for h,b in rules:
        s += h+" :- "+", ".join((x if pos else "\\+"+x) for x,pos in b)+". "
    for h in sorted({h for h,b in rules}): s += "query(%s). "%h
    return s
def ok(rules):
    heads = {h for h,b in rules}
    used = {x for h,b in rules for x,s in b if x in der}
    return used <= heads
mode = sys.argv[1]; nr = int(sys.argv[2]); bound=int(sys.argv[3]); step=int(sys.argv[4])
eng = PE if mode=='fifo' else RE
t=time.time(); tot=0; nprog=0; bad=0
for idx, rs in enumerate(itertools.combinations(allrules, nr)):
    if not ok(rs) or idx % step: continue
    src = txt(rs)
    base, results, n = explore(src, eng, bound)
    tot+=n; nprog+=1
    if set(results) != {base}:
        bad+=1
        if bad<=25: print('DIFF', src, 'BASE', base, {str(k)[:80]:v for k,v in results.items() if k!=base}, flush=True)
    if time.time()-t > float(sys.argv[5]): print('time cap'); break
print(mode, 'programs', nprog, 'executions', tot, 'bad', bad, 'time', time.time()-t)
