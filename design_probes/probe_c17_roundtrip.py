"""Design probe for C17(b): parse -> print -> parse fixpoint over operator expressions."""
import warnings, signal, itertools, sys, time, collections
warnings.filterwarnings("ignore")
from problog.parser import PrologParser
from problog.program import ExtendedPrologFactory
from problog.errors import ProbLogError
from problog.logic import Term, Var, Constant
P = PrologParser(ExtendedPrologFactory())
def struct(t):
    """independent structural fingerprint (not Term.__eq__)"""
    if t is None: return ('none',)
    if isinstance(t, int): return ('i', t)
    if isinstance(t, Var): return ('V', t.name)
    if isinstance(t, Constant): return ('C', type(t.functor).__name__, t.functor)
    if isinstance(t, list): return ('L',) + tuple(struct(x) for x in t)
    f = t.functor
    f = struct(f) if isinstance(f, Term) else ('f', str(f).strip("'") if False else str(f))
    pr = struct(t.probability) if t.probability is not None else None
    return ('T', type(t).__name__ if type(t).__name__ in ('Not',) else 'Term', f, pr) + tuple(struct(a) for a in t.args)
BIN = ['+','-','*','/','//','mod','rem','div','**','^','<<','>>','/\\','\\/','xor','=','\\=','==','\\==','<','>','=<','>=','=:=','=\\=','@<','@>','@=<','@>=','is','=..',',',';','->','-->'':',':']
BIN = ['+','-','*','/','//','mod','rem','div','**','^','<<','>>','/\\','\\/','xor','=','\\=','==','\\==','<','>','=<','>=','=:=','=\\=','@<','@>','@=<','@>=','is','=..',',',';',':']
UN = ['-','+','\\','\\+','not ']
LEAVES = ['a','X','1','-1','2.5','"s"',"'A b'",'[]','[a,X]','[a|T]','f(a)','_']
def exprs(depth):
    if depth == 0: return list(LEAVES)
    sub = exprs(depth-1)
    out = list(LEAVES)
    for op in BIN:
        for l in sub:
            for r in sub:
                out.append('(%s) %s (%s)' % (l, op, r) if depth > 1 else '%s %s %s' % (l, op, r))
                if depth == 1: out.append('(%s) %s (%s)' % (l, op, r))
    for op in UN:
        for l in sub: out.append('%s(%s)' % (op, l)); 
        if depth == 1:
            for l in sub: out.append('%s%s' % (op, l))
    return out
def main():
    depth = int(sys.argv[1]); step = int(sys.argv[2]); off = int(sys.argv[3]); cap = float(sys.argv[4])
    t0 = time.time(); n = 0; bad = collections.Counter(); ex = {}
    E = exprs(1) if depth == 1 else None
    if depth == 2:
        sub = exprs(1)
        def gen():
            for op in BIN:
                for l in LEAVES:
                    for r in sub: yield '%s %s (%s)' % (l, op, r); yield '(%s) %s %s' % (r, op, l)
            for op in UN:
                for r in sub: yield '%s(%s)' % (op, r)
        E = gen()
    for i, e in enumerate(E):
        if i % step != off: continue
        for wrap in ('q(%s).', 'q :- %s.', '%s.', '0.5::q(%s).'):
            s = wrap % e
            try:
                t1 = P.parseString(s)
            except ProbLogError: continue
            except Exception as x:
                bad['parse-crash:' + type(x).__name__] += 1; ex.setdefault('parse-crash:' + type(x).__name__, []).append(s); continue
            n += 1
            try:
                s2 = ' '.join(str(c) + '.' for c in t1)
                t2 = P.parseString(s2)
            except ProbLogError as x:
                bad['reparse-error'] += 1; ex.setdefault('reparse-error', []).append((s, s2, str(x)[:60])); continue
            except Exception as x:
                bad['print-crash:' + type(x).__name__] += 1; ex.setdefault('print-crash:' + type(x).__name__, []).append(s); continue
            a = [struct(c) for c in t1]; b = [struct(c) for c in t2]
            if a != b:
                bad['mismatch'] += 1; ex.setdefault('mismatch', []).append((s, s2))
        if time.time() - t0 > cap: print('cap'); break
    print('parsed', n, dict(bad), round(time.time() - t0, 1))
    for k, v in ex.items():
        seen = 0
        for e in v[:12]: print(k, '|', e)
main()
