"""Design probe for C27: every registered builtin x all argument-shape tuples (arity<=3)."""
import warnings, signal, itertools, sys, time, collections, traceback, io, contextlib, os
warnings.filterwarnings("ignore")
from problog.program import PrologString
from problog.engine import DefaultEngine
from problog.errors import ProbLogError
from problog import get_evaluatable
class TO(Exception): pass
def _h(*a): raise TO()
signal.signal(signal.SIGALRM, _h)
SHAPES = ["X", "a", "undefd", "3", "-2", "2.5", '"s"', "[]", "[a,b]", "[a|T]", "f(a,Y)", "g"]
eng0 = DefaultEngine()
sigs = sorted(eng0.get_builtins())
step = int(sys.argv[1]); off = int(sys.argv[2]); cap = float(sys.argv[3])
sites = collections.Counter(); examples = {}; n = 0; t0 = time.time(); tos = 0
os.chdir('/var/tmp')
for si, sig in enumerate(sigs):
    if si % step != off: continue
    name, ar = sig.rsplit('/', 1); ar = int(ar)
    if ar > 3: continue
    fname = name if name[0].islower() and name.replace('_','a').isalnum() else "'%s'" % name
    for args in itertools.product(SHAPES, repeat=ar):
        call = fname + ("(" + ",".join(args) + ")" if ar else "")
        src = "g. 0.4::h. q :- %s. query(q)." % call
        n += 1
        signal.alarm(5)
        try:
            with contextlib.redirect_stdout(io.StringIO()), contextlib.redirect_stderr(io.StringIO()):
                get_evaluatable().create_from(PrologString(src)).evaluate()
        except ProbLogError:
            pass
        except TO:
            tos += 1
        except BaseException as e:
            tb = traceback.extract_tb(e.__traceback__)
            fr = [f for f in tb if '/problog/' in f.filename]
            site = (type(e).__name__, (os.path.basename(fr[-1].filename) + ':' + fr[-1].name) if fr else '?')
            sites[site] += 1
            examples.setdefault(site, src)
        finally:
            signal.alarm(0)
    if time.time() - t0 > cap:
        print('cap at', sig); break
print('calls', n, 'timeouts', tos, 'time', round(time.time() - t0, 1))
for s, c in sites.most_common():
    print(c, s, '|', examples[s])
