import warnings, signal, random, collections
warnings.filterwarnings("ignore")
signal.alarm(100)
from problog.program import PrologString
import problog.tasks.sample as S

class Stop(Exception): pass
class Prov:
    def __init__(self, prefix): self.prefix=prefix; self.i=0; self.points=[]; self.mass=1.0
    def decide(self, t):
        t = min(max(t,0.0),1.0)
        c = self.prefix[self.i] if self.i < len(self.prefix) else 0
        self.i+=1; self.points.append(t)
        # choice 0 => comparison true (mass t), 1 => false (mass 1-t)
        self.mass *= (t if c==0 else 1.0-t)
        return c==0
class DF(float):
    def __lt__(self, o): return PROV.decide(float(o))
    def __le__(self, o): return PROV.decide(float(o))
class R(random.Random):
    def random(self): return DF(0.5)
S.random = R()
orig_verify = S.verify_evidence
def verify(engine, db, ev_target, q_target):
    ok = orig_verify(engine, db, ev_target, q_target)
    if not ok: raise Stop()
    return ok
S.verify_evidence = verify

def attempt(src, prefix, **kw):
    global PROV
    PROV = Prov(prefix)
    try:
        gen = S.sample(PrologString(src), n=1, format='dict', **kw)
        out = next(gen)
        res = ('accept', tuple(sorted((str(k), v) for k,v in out.items())))
    except Stop:
        res = ('reject', None)
    return res, PROV.points, PROV.mass

def explore(src, **kw):
    dist = collections.defaultdict(float); stack=[[]]; leaves=0
    while stack:
        prefix = stack.pop()
        res, pts, mass = attempt(src, prefix, **kw)
        # branch on every point after prefix: alternative 1
        for i in range(len(prefix), len(pts)):
            if 0.0 < pts[i] < 1.0 or True:
                alt = prefix + [0]*(i-len(prefix)) + [1]
                # mass of alt branch nonzero?
                if pts[i] < 1.0: stack.append(alt)
        if mass > 0: dist[res]+=mass; leaves+=1
    return dist, leaves
src = "0.3::a. 0.2::b; 0.5::c. q :- a, c. q :- b. query(q). query(a). query(b). query(c). evidence(q)."
for kw in (dict(), dict(propagate_evidence=True)):
    dist, leaves = explore(src, **kw)
    acc = sum(m for (k,_),m in dist.items() if k=='accept')
    print(kw, 'leaves', leaves, 'total', sum(dist.values()), 'accept mass', acc)
    for (k,w),m in sorted(dist.items(), key=str):
        if k=='accept': print('   ', w, m/acc)
# reference: worlds: a(0.3) x {b 0.2, c 0.5, none 0.3}; q = a&c | b
ref = collections.defaultdict(float)
for a,pa in ((True,.3),(False,.7)):
    for ch,pc in (('b',.2),('c',.5),(None,.3)):
        q = (a and ch=='c') or ch=='b'
        if q: ref[(('a',a),('b',ch=='b'),('c',ch=='c'),('q',True))]+=pa*pc
z=sum(ref.values()); print('P(e)=',z)
for k,v in sorted(ref.items(), key=str): print('   ref', k, v/z)
