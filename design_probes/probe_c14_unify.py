import warnings, signal, itertools, time, sys
warnings.filterwarnings("ignore")
signal.alarm(550)
from problog.program import PrologString
from problog.engine import DefaultEngine
from problog.logic import Term, Var, Constant
from problog.errors import ProbLogError
# term repr: ('v',name) | (functor, args...)
leaves = [('a',), ('b',), ('v','X'), ('v','Y')]
def gen(depth):
    if depth==0: return list(leaves)
    sub = gen(depth-1)
    out = list(leaves)
    out += [('f',s) for s in sub]
    out += [('g',s,t) for s in sub for t in sub]
    return out
def size(t): return 1 if t[0]=='v' or len(t)==1 else 1+sum(size(x) for x in t[1:])
U = [t for t in gen(2) if size(t)<=5]
def show(t):
    if t[0]=='v': return t[1]
    if len(t)==1: return t[0]
    return t[0]+'('+','.join(show(x) for x in t[1:])+')'
def walk(t, s):
    while t[0]=='v' and t[1] in s: t = s[t[1]]
    return t
def occurs(v, t, s):
    t = walk(t,s)
    if t[0]=='v': return t[1]==v
    return any(occurs(v,x,s) for x in t[1:])
def unify(a,b,s):
    a=walk(a,s); b=walk(b,s)
    if a[0]=='v' and b[0]=='v' and a[1]==b[1]: return s
    if a[0]=='v':
        if occurs(a[1], b, s): return 'occurs'
        s=dict(s); s[a[1]]=b; return s
    if b[0]=='v': return unify(b,a,s)
    if a[0]!=b[0] or len(a)!=len(b): return None
    for x,y in zip(a[1:],b[1:]):
        s = unify(x,y,s)
        if s is None or s=='occurs': return s
    return s
def resolve(t,s):
    t=walk(t,s)
    if t[0]=='v' or len(t)==1: return t
    return (t[0],)+tuple(resolve(x,s) for x in t[1:])
def canon_vars(ts):
    # rename variables in tuple of terms by first occurrence
    m={}
    def r(t):
        if t[0]=='v':
            if t[1] not in m: m[t[1]]='V%d'%len(m)
            return ('v',m[t[1]])
        if len(t)==1: return t
        return (t[0],)+tuple(r(x) for x in t[1:])
    return tuple(r(t) for t in ts)
def from_problog(t):
    if t is None or isinstance(t,int): return ('v','_%s'%t)
    if isinstance(t, Var): return ('v', t.name)
    if t.arity==0: return (str(t.functor),)
    return (str(t.functor),)+tuple(from_problog(x) for x in t.args)
KINDS={}
eng = DefaultEngine()
print('universe', len(U), 'pairs', len(U)**2)
t0=time.time(); n=0; bad=0; occ=collections=0
stats={'succ':0,'fail':0,'occurs':0}
for a in U:
    for b in U:
        n+=1
        src = "q(X,Y) :- %s = %s. r :- %s \\= %s." % (show(a), show(b), show(a), show(b))
        eng = DefaultEngine(); db = eng.prepare(PrologString(src))
        try:
            res = eng.query(db, Term('q', None, None))
            got = [canon_vars(tuple(from_problog(x) for x in r)) for r in res]
            err=None
        except ProbLogError as e:
            got=None; err=type(e).__name__
        try:
            eng = DefaultEngine(); db = eng.prepare(PrologString(src)); neq = bool(eng.query(db, Term("r")))
        except ProbLogError as e:
            neq = type(e).__name__
        s = unify(a,b,{})
        if s=='occurs':
            stats['occurs']+=1
            okk = (got is None) or (got==[])
            exp='fail-or-error'
        elif s is None:
            stats['fail']+=1
            okk = (got==[]) and neq is True
            exp='fail'
        else:
            stats['succ']+=1
            e = canon_vars((resolve(('v','X'),s), resolve(('v','Y'),s)))
            okk = (got==[e]) and neq is False
            exp=e
        if not okk:
            bad+=1
            kk=(exp if isinstance(exp,str) else 'succ', 'err:'+str(err) if got is None else ('nores' if got==[] else 'res'), str(neq)); KINDS[kk]=KINDS.get(kk,0)+1
            if KINDS[kk]<=3: print('BAD', show(a),'=',show(b),'expected',exp,'got',got,err,'neq',neq, flush=True)
print('pairs',n,'bad',bad,stats,time.time()-t0); print(KINDS)
