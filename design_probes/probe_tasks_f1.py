"""Design probe: stratified F1 programs (<= nr rules) through several task APIs, compared with the
propositional possible-world reference.  usage: probe_tasks_f1.py NR STEP OFF CAPSEC"""
import warnings, signal, itertools, sys, time, math, collections, traceback
warnings.filterwarnings("ignore")
sys.path.insert(0, '/verif/design_probes')
from f1ref import *
from problog.program import PrologString
from problog import get_evaluatable
from problog.formula import LogicFormula, LogicDAG, LogicNNF
from problog.cnf_formula import CNF
from problog.evaluator import Semiring, SemiringProbability, SemiringLogProbability, SemiringSymbolic
from problog.tasks.mpe import mpe_maxsat, mpe_semiring
from problog.errors import ProbLogError

class TO(Exception): pass
def _h(*a): raise TO()
signal.signal(signal.SIGALRM, _h)

class MyProb(Semiring):            # user-defined probability semiring, documented interface only
    def one(self): return 1.0
    def zero(self): return 0.0
    def is_one(self, v): return abs(v - 1.0) < 1e-12
    def is_zero(self, v): return abs(v) < 1e-12
    def plus(self, a, b): return a + b
    def times(self, a, b): return a * b
    def negate(self, a): return 1.0 - a
    def normalize(self, a, z): return a / z
    def value(self, a): return float(a)
    def is_dsp(self): return True
class MyProbNSP(MyProb):
    def is_nsp(self): return True
    def is_dsp(self): return True

BAD = collections.OrderedDict()
def note(kind, src, detail):
    BAD.setdefault(kind, [])
    if len(BAD[kind]) < 4: BAD[kind].append((src, str(detail)[:200]))
    COUNT[kind] += 1
COUNT = collections.Counter()

def evaluate(src, k=None, sem=None, **kw):
    lf = LogicFormula.create_from(PrologString(src), **kw)
    return {str(a): v for a, v in get_evaluatable(k, semiring=sem).create_from(lf).evaluate(semiring=sem).items()}

def cmp(tag, src, got, exp, tol=1e-8):
    for q, v in exp.items():
        g = got.get(q)
        if g is None or abs(g - v) > tol:
            note(tag, src, (got, exp)); return False
    return True

nr = int(sys.argv[1]); step = int(sys.argv[2]); off = int(sys.argv[3]); cap = float(sys.argv[4])
t0 = time.time(); n = 0
for rs in stratified_programs(nr, step, off):
    heads = sorted({h for h, b in rs})
    for ev in [None, ('a', True), (heads[-1], True), (heads[0], False)]:
        pe, pq, undef = reference(rs, heads, ev)
        if pe < 1e-12: continue
        exp = {q: pq[q] / pe for q in heads}
        src = program_text(rs, heads, ev); n += 1
        signal.alarm(20)
        try:
            # C05: semirings / backends
            for tag, k, sem in [('c05-prob', 'ddnnf', SemiringProbability()), ('c05-log', None, SemiringLogProbability()),
                                ('c05-user', None, MyProb()), ('c05-usernsp', None, MyProbNSP())]:
                try: cmp(tag, src, evaluate(src, k, sem), exp)
                except TO: raise
                except Exception as e: note(tag + ':' + type(e).__name__, src, e)
            try:
                sym = evaluate(src, 'ddnnf', SemiringSymbolic())
                cmp('c05-symbolic', src, {q: float(eval(v, {'__builtins__': {}})) for q, v in sym.items()}, exp)
            except TO: raise
            except Exception as e: note('c05-symbolic:' + type(e).__name__, src, e)
            # C06: a few option vectors
            for kw in [dict(propagate_evidence=True), dict(propagate_weights=SemiringLogProbability()), dict(keep_all=True),
                       dict(keep_duplicates=True, keep_order=True), dict(label_all=True, avoid_name_clash=True),
                       dict(propagate_evidence=True, propagate_weights=SemiringProbability(), keep_all=True, hide_builtins=True)]:
                tag = 'c06-' + '+'.join(sorted(kw))
                try: cmp(tag, src, evaluate(src, **kw), exp)
                except TO: raise
                except Exception as e: note(tag + ':' + type(e).__name__, src, e)
            # C25: export / re-import
            for cls in (LogicFormula, LogicDAG):
                try:
                    gp = cls.create_from(PrologString(src), label_all=True, avoid_name_clash=True, keep_order=True)
                    cmp('c25-' + cls.__name__, src, evaluate(gp.to_prolog()), exp)
                except TO: raise
                except Exception as e: note('c25-%s:%s' % (cls.__name__, type(e).__name__), src, e)
            # C26: subquery
            try:
                evl = ('[' + (ev[0] if ev[1] else '\\+' + ev[0]) + ']') if ev else None
                wsrc = "0.3::a. 0.6::b. " + rules_text(rs)
                for q in heads:
                    wsrc += ("w_%s(P) :- subquery(%s, P, %s). " % (q, q, evl)) if ev else ("w_%s(P) :- subquery(%s, P). " % (q, q))
                    wsrc += "query(w_%s(P)). " % q
                got = evaluate(wsrc)
                for q in heads:
                    vals = [float(k[len('w_%s(' % q):-1]) for k, v in got.items() if k.startswith('w_%s(' % q) and v > 0.5]
                    if len(vals) != 1 or abs(vals[0] - exp[q]) > 1e-8: note('c26', wsrc, (got, exp)); break
            except TO: raise
            except Exception as e: note('c26:' + type(e).__name__, src, e)
            # C20: MPE (only with evidence)
            if ev:
                best = 0.0
                for w, pw in worlds():
                    T, U = wfm(rs, w)
                    if (ev[0] in T) == ev[1]: best = max(best, pw)
                try:
                    dag = LogicDAG.createFrom(PrologString(src), avoid_name_clash=True, label_all=True, labels=[("output", 1)])
                    p1, f1 = mpe_maxsat(dag)
                    if f1 is None or abs(p1 - best) > 1e-3 * best + 1e-9: note('c20-maxsat', src, (p1, f1, best))
                except TO: raise
                except Exception as e: note('c20-maxsat:' + type(e).__name__, src, e)
                try:
                    lf = LogicFormula.create_from(PrologString(src), label_all=True, avoid_name_clash=True)
                    p2, f2 = mpe_semiring(lf)
                    if abs(p2 - best) > 1e-9: note('c20-semiring', src, (p2, f2, best))
                except TO: raise
                except Exception as e: note('c20-semiring:' + type(e).__name__, src, e)
            else:
                # C23: kbest (evidence free)
                try:
                    got = evaluate(src, 'kbest')
                    for q in heads:
                        v = got[q]
                        lo, hi = (v, v) if not isinstance(v, tuple) else v
                        if not (lo - 1e-8 <= exp[q] <= hi + 1e-8): note('c23', src, (got, exp)); break
                except TO: raise
                except Exception as e: note('c23:' + type(e).__name__, src, e)
        except TO:
            note('timeout', src, '')
        finally:
            signal.alarm(0)
    if time.time() - t0 > cap:
        print('cap'); break
print('cases', n, 'time', round(time.time() - t0, 1))
print(dict(COUNT))
for k, v in BAD.items():
    for s, d in v: print(k, '|', s, '|', d)
