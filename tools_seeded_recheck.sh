#!/bin/bash
# Re-run checks against a stored seeded change: copies /repo/problog, applies seeded/<ID>/patch.diff there,
# runs the named checks with VERIF_REPO pointing at the copy; appends the verdicts to seeded/<ID>/result.txt.
# usage: tools_seeded_recheck.sh <ID> <check ids...>
set -u
ID=$1; shift
D=/var/tmp/seedre-$ID
rm -rf $D; mkdir -p $D; cp -r /repo/problog $D/
(cd $D && patch -p1 -s < /verif/seeded/$ID/patch.diff) || { echo "patch does not apply"; exit 2; }
{
echo "== re-check of seeded change $ID against /verif at $(git -C /verif log --oneline | head -1 | cut -d' ' -f1) ($(date -u +%FT%TZ))"
for c in "$@"; do
  (cd /verif && VERIF_OUT=$D/out VERIF_REPO=$D VERIF_BUDGET=${VERIF_BUDGET:-3000} timeout 4000 ./check $c --tier ${TIER:-quick} --quiet > $D/$c.log 2>&1; echo "check $c on changed tree: exit $? ; $(grep -c '^VIOLATION' $D/$c.log) unlisted violation(s)")
  f=$(grep '^VIOLATION' $D/$c.log | head -1 | sed 's/.*replay=//'); [ -n "$f" ] && [ -f "$f" ] && cp "$f" /verif/seeded/$ID/caught_by_$c.json
done
} | tee -a /verif/seeded/$ID/result.txt
rm -rf $D
